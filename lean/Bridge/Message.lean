/-
  Bridge.Message — the four line shapes of a module-rule violation message, written down independently of the
  generator (PtaModel/Message.lean): a renderer from report items (`PtaModel.Rule.Item`) to lines, and a parser from
  lines back to items. Used by PtaProofs/Lemmas/MessageText.lean and Props/C03.lean to carry the item-level
  theorems over to literal message lines.

      "X" imports "Y".                                                   .imp X Y false
      "Y" is imported by "X".                                            .imp X Y true     (X = importer)
      [Sub modules of ]"S" do[es] not import [any module that is not ]OBJS.          .miss any S objs false
      [Sub modules of ]"S" {is|are} not imported by [any module that is not ]OBJS.   .miss any S objs true
      OBJS = OBJ, OBJ, …      OBJ = [a sub module of ]"O"

  Layer rules: the same for `LItem` (renderer only).
-/
import PtaModel
namespace Pta

/-- `"name"` -/
def quoted (n : Str) : Str := '"' :: (n ++ ['"'])

/-- the subject of a `does not import` line -/
def subjText (s : Mod) : Str := (if s.group then "Sub modules of ".toList else []) ++ quoted s.id

/-- one object of a `does not import` line -/
def objText (o : Mod) : Str := (if o.group then "a sub module of ".toList else []) ++ quoted o.id

/-- the verb of a `does not import` line -/
def missVerb (byDir group : Bool) : Str :=
  if byDir then (if group then " are not imported by ".toList else " is not imported by ".toList)
  else (if group then " do not import ".toList else " does not import ".toList)

def anyText (any : Bool) : Str := if any then "any module that is not ".toList else []

/-- the line of a report item, the objects of a `miss` item in the order given -/
def renderLine : Item → Str
  | .imp u v false => quoted u ++ (" imports ".toList ++ (quoted v ++ ['.']))
  | .imp u v true => quoted v ++ (" is imported by ".toList ++ (quoted u ++ ['.']))
  | .miss any s objs byDir =>
    subjText s ++ (missVerb byDir s.group ++ (anyText any ++ (joinWith ", ".toList (objs.map objText) ++ ['.'])))

/-- the generator lists the objects of one subject sorted by their text -/
def sortObjs (objs : List Mod) : List Mod := sortBy (fun a b => strLe (objText a) (objText b)) objs

/-- a report item as its line shows it -/
def Item.canon : Item → Item
  | .miss any s objs byDir => .miss any s (sortObjs objs) byDir
  | x => x

/-- the message line of a report item -/
def renderItem (x : Item) : Str := renderLine x.canon

/-- the whole message from the report items: `sorted(set(lines))` -/
def renderItems (items : List Item) : List Str := sortStr (dedup (items.map renderItem))

/-- the outcome of `assert_applies` with the report items replaced by the message lines -/
def Verdict.toText : Verdict → TextVerdict
  | .pass => .pass
  | .fail items => .fail (renderItems items)
  | .err k => .err k

/-! ### parser -/

/-- drop a literal prefix -/
def stripPrefix (p s : Str) : Option Str := if startsWith p s then some (s.drop p.length) else none

/-- `"name"rest ↦ (name, rest)`; the name ends at the first `"` -/
def takeQuoted : Str → Option (Str × Str)
  | '"' :: r =>
    match r.dropWhile (· != '"') with
    | '"' :: rest => some (r.takeWhile (· != '"'), rest)
    | _ => none
  | _ => none

/-- `[a sub module of ]"O"rest` -/
def parseObj (s : Str) : Option (Mod × Str) :=
  match stripPrefix "a sub module of ".toList s with
  | some r => (takeQuoted r).map fun nr => (⟨true, nr.1⟩, nr.2)
  | none => (takeQuoted s).map fun nr => (⟨false, nr.1⟩, nr.2)

/-- `OBJ, OBJ, … OBJ.` up to the end of the line -/
def parseObjs : Nat → Str → Option (List Mod)
  | 0, _ => none
  | fuel + 1, s =>
    match parseObj s with
    | none => none
    | some (o, rest) =>
      if rest = ['.'] then some [o]
      else match stripPrefix ", ".toList rest with
        | some r => (parseObjs fuel r).map (o :: ·)
        | none => none

/-- `[any module that is not ]OBJS.` -/
def parseMissTail (s : Mod) (byDir : Bool) (r : Str) : Option Item :=
  match stripPrefix "any module that is not ".toList r with
  | some r' => (parseObjs r'.length r').map fun os => .miss true s os byDir
  | none => (parseObjs r.length r).map fun os => .miss false s os byDir

/-- the rest of a `does not import` line after the subject -/
def parseMiss (s : Mod) (rest : Str) : Option Item :=
  match stripPrefix (missVerb false s.group) rest with
  | some r => parseMissTail s false r
  | none =>
    match stripPrefix (missVerb true s.group) rest with
    | some r => parseMissTail s true r
    | none => none

/-- the rest of a line after a plain quoted name -/
def parseAfterName (n rest : Str) : Option Item :=
  match stripPrefix " imports ".toList rest with
  | some r =>
    match takeQuoted r with
    | some (m, ['.']) => some (.imp n m false)
    | _ => none
  | none =>
    match stripPrefix " is imported by ".toList rest with
    | some r =>
      match takeQuoted r with
      | some (m, ['.']) => some (.imp m n true)
      | _ => none
    | none => parseMiss ⟨false, n⟩ rest

/-- one message line back to a report item -/
def parseLine (s : Str) : Option Item :=
  match stripPrefix "Sub modules of ".toList s with
  | some r =>
    match takeQuoted r with
    | some (n, rest) => parseMiss ⟨true, n⟩ rest
    | none => none
  | none =>
    match takeQuoted s with
    | some (n, rest) => parseAfterName n rest
    | none => none

/-- no `"` in the name -/
def noQuote (n : Str) : Bool := !n.contains '"'

/-- the names of an item are free of `"`, and a `miss` item has at least one object (the generator never emits
    a `does not import` line without objects) -/
def Item.parsable : Item → Bool
  | .imp u v _ => noQuote u && noQuote v
  | .miss _ s objs _ => noQuote s.id && objs.all (fun o => noQuote o.id) && !objs.isEmpty

/-! ### layer rules -/

def tagText : Option Str → Str
  | none => " (no layer)".toList
  | some l => " (layer ".toList ++ (quoted l ++ [')'])

def layerName : Option Str → Str
  | none => "None".toList
  | some l => l

def optStrLe : Option Str → Option Str → Bool
  | none, _ => true
  | some _, none => false
  | some a, some b => strLe a b

/-- the message line of a layer report item -/
def renderLItem : LItem → Str
  | .imp u v false tu tv => quoted u ++ (tagText tu ++ (" imports ".toList ++ (quoted v ++ (tagText tv ++ ['.']))))
  | .imp u v true tu tv => quoted v ++ (tagText tv ++ (" is imported by ".toList ++ (quoted u ++ (tagText tu ++ ['.']))))
  | .miss any s objs byDir =>
    "Layer ".toList ++ (quoted (layerName s) ++ ((if byDir then " is not imported by ".toList else " does not import ".toList) ++
      ((if any then "any layer that is not ".toList else []) ++
        (joinWith ", ".toList ((sortBy optStrLe objs).map fun o => "layer ".toList ++ quoted (layerName o)) ++ ['.']))))

def renderLItems (items : List LItem) : List Str := sortStr (dedup (items.map renderLItem))

/-- the outcome of `LayerRule.assert_applies` with the report items replaced by the message lines -/
def LVerdict.toText : LVerdict → TextVerdict
  | .pass => .pass
  | .fail items => .fail (renderLItems items)
  | .err k => .err k

end Pta
