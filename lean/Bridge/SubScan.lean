/-
  Bridge.SubScan — vocabulary of the sub-directory-scan part of property C04 ("scanning a sub-directory as
  module_path gives the same modules and imports as scanning the whole root restricted to that sub-tree; absolute
  imports written either fully qualified from the root directory's name or relative to module_path's parent
  directory both resolve").

  `ImportConverter._adjust_with_root_prefix` tries every absolute name `n` first as `prefix.n`, where `prefix` is the
  dotted path of `module_path`'s parent directory (`_get_absolute_import_prefix`), and takes it when that is a scanned
  module at or below `module_path`. A scan of the whole root has no such prefix. The two scans therefore agree on a
  statement only when the name as written cannot ALSO be read relative to `module_path`'s parent (`portableStmt`);
  with repeated directory names (`proj/proj/…`) both readings can exist — the inherent ambiguity of the scheme.
-/
import PtaModel
import PtaSpec
import Bridge.Abs
import Bridge.ScanAbs
import Bridge.ScanTree
namespace Pta
open PtaSpec

/-- `_get_absolute_import_prefix` on component lists: the name of `module_path`'s parent directory, none for a scan
    of the whole root (the specification's `absPrefix`) -/
def parentPrefix (root : Comp) (mp : List Comp) : Option Name :=
  if mp.isEmpty then none else some (root :: mp.dropLast)

/-- A statement means the same in the scan of `module_path` and in the scan of the whole root: no absolute name the
    conversion looks up (`n` of `import n`; `P.n` and `P` of `from P import n`) is, read relative to `module_path`'s
    parent (`pre ++ name`), a module of the sub-scan. Relative imports are always portable (a target above
    `module_path` is dropped by both sides of the comparison). `inside` = the sub-scan's internal modules. -/
def portableStmt (inside : List Name) (ap : Option Name) : SStmt → Bool
  | .imp names => names.all fun n => match ap with | some pre => !inside.contains (pre ++ n) | none => true
  | .impFrom (some p) names 0 =>
    names.all fun n =>
      match ap with
      | some pre => !inside.contains (pre ++ (p ++ [n])) && !inside.contains (pre ++ p)
      | none => true
  | .impFrom none _ 0 => true
  | .impFrom _ _ (_ + 1) => true

/-- every statement of every file the scan of `mp` reads is portable -/
def portable (root : Comp) (sents : List SEntry) (mp : List Comp) : Bool :=
  let inside := (scanModules root sents mp).filter fun m => (root :: mp).isPrefixOf m
  (sents.filter fun e => !e.isDir && survives sents mp e).all fun f =>
    f.stmts.all (portableStmt inside (parentPrefix root mp))

/-! ### the spelling relative to `module_path`'s parent directory -/

/-- `root.<…mp's parent…>.x` ↦ `x`: the fully qualified spelling with the absolute-import prefix stripped (names
    that do not properly extend the prefix are left as written) -/
def stripName : Option Name → Name → Name
  | none, n => n
  | some pre, n => if pre.isPrefixOf n && decide (pre.length < n.length) then n.drop pre.length else n

/-- the absolute statements re-spelled relative to `module_path`'s parent; relative imports unchanged -/
def stripSStmt (ap : Option Name) : SStmt → SStmt
  | .imp names => .imp (names.map (stripName ap))
  | .impFrom (some p) names 0 => .impFrom (some (stripName ap p)) names 0
  | .impFrom none names 0 => .impFrom none names 0
  | .impFrom m names (l + 1) => .impFrom m names (l + 1)

/-- the re-spelled name is not ambiguous the other way round: if the stripped name `r` of `n = pre ++ r` happens to
    be a module of the sub-scan as it stands, then so is `n` (which the conversion tries first) -/
def plainName (inside : List Name) (ap : Option Name) (n : Name) : Bool :=
  !inside.contains (stripName ap n) || inside.contains n

def plainStmt (inside : List Name) (ap : Option Name) : SStmt → Bool
  | .imp names => names.all (plainName inside ap)
  | .impFrom (some p) names 0 =>
    plainName inside ap p &&
      names.all fun x => !inside.contains (stripName ap p ++ [x]) || inside.contains (p ++ [x])
  | .impFrom none _ 0 => true
  | .impFrom _ _ (_ + 1) => true

/-- every statement of every file the scan of `mp` reads can be re-spelled without ambiguity -/
def plain (root : Comp) (sents : List SEntry) (mp : List Comp) : Bool :=
  let inside := (scanModules root sents mp).filter fun m => (root :: mp).isPrefixOf m
  (sents.filter fun e => !e.isDir && survives sents mp e).all fun f =>
    f.stmts.all (plainStmt inside (parentPrefix root mp))

/-- the same on raw strings (dotted names as the parser delivers them) -/
def stripStr (ap : Option Name) (s : Str) : Str := render (stripName ap (splitDots s))

def stripStmt (ap : Option Name) : ImportStmt → ImportStmt
  | .imp names => .imp (names.map (stripStr ap))
  | .impFrom (some p) names 0 => .impFrom (some (stripStr ap p)) names 0
  | .impFrom none names 0 => .impFrom none names 0
  | .impFrom m names (l + 1) => .impFrom m names (l + 1)

/-- one entry with its absolute imports re-spelled, if it lies at or below `mp` -/
def respellEntry (root : Str) (mp : List Str) (e : Entry) : Entry :=
  if mp.isPrefixOf e.rel then { e with stmts := e.stmts.map (stripStmt (parentPrefix root mp)) } else e

/-- THE SAME tree with every absolute import of the files at or below `mp` re-spelled relative to `mp`'s parent
    directory (`import proj.a.x` ↦ `import a.x` for `mp = a`) -/
def parentRelative (root : Str) (mp : List Str) (entries : List Entry) : List Entry :=
  entries.map (respellEntry root mp)

end Pta
