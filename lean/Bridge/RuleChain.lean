/-
  Bridge.RuleChain — definitions for the widened C01 / C03 oracle theorems (Props/C01.lean):
  * the domains `compatible` ⊆ `admissible` of rules beyond `strict`,
  * what `_convert_aliases` turns an `anything` rule into, on the specification's vocabulary (`deAlias`),
  * the fluent call chain of a specification rule (`ruleOps`),
  * the literal reading of "something else" for `sub modules of X` subjects (`othersLit`, audit F3).
-/
import PtaModel
import PtaSpec
import Bridge.Abs
namespace Pta
open PtaSpec

/-- every filter the rule talks about: subjects, then effective objects (for `anything`: the subjects again) -/
def filtersOf (r : RuleSpec) : List SFilter := r.subjects ++ r.effObjects

/-- all subject and object filters are `are_named` filters -/
def allNamedRule (r : RuleSpec) : Bool := (filtersOf r).all fun f => !f.isSub

/-- every `are_sub_modules_of` filter's identifier is unrelated to the identifier of every OTHER filter of the rule
    (subjects and objects; the same filter may occur several times and on both sides). `are_named` filters may be
    related to each other in any way. -/
def compatible (r : RuleSpec) : Bool :=
  (filtersOf r).all fun p => !p.isSub || (filtersOf r).all fun f => decide (f = p) || !related p.id f.id

/-- what the searches need: the parent identifier of an `are_sub_modules_of` filter of the rule is not a member of any
    filter of the rule. (Weaker than `compatible`: `sub modules of p` together with `p.a` is allowed.) -/
def parentFree (r : RuleSpec) : Bool :=
  (filtersOf r).all fun p => !p.isSub || (filtersOf r).all fun f => !f.mem p.id

/-- for the `anything` aliases: a subject that lies strictly below another subject lies strictly below a NAMED subject
    (so what `_convert_aliases` removed BEFORE the repair of F-C12a was covered by a subject given by name; since the
    repair `_convert_aliases` only removes such subjects and this condition is no longer needed by the oracle theorems,
    see `verdict_spec_parentFree` in Props/C01.lean — it is kept because `admissible` is part of published statements) -/
def dedupSafe (r : RuleSpec) : Bool :=
  !r.anything || r.subjects.all fun m =>
    !(r.subjects.any fun o => sdesc o.id m.id) || r.subjects.any fun o => !o.isSub && sdesc o.id m.id

/-- the domain of the general oracle theorems -/
def admissible (r : RuleSpec) : Bool := parentFree r && dedupSafe r

/-- `_get_modules_to_check_without_parent_and_submodule_combinations` on the specification's vocabulary (after the
    repair of F-C12a): a subject is kept iff its identifier is not a strict descendant of the identifier of a subject
    GIVEN BY NAME (`sub modules of X` does not contain `X`, so it no longer covers another subject) -/
def keepSubject (S : List SFilter) (m : SFilter) : Bool := !(S.any fun o => !o.isSub && sdesc o.id m.id)

def keptSubjects (S : List SFilter) : List SFilter := S.filter (keepSubject S)

/-- what `_convert_aliases` turns `S should_not import_anything` into: `S' should_not import_that … except S'` on the
    retained subjects `S'` -/
def deAlias (r : RuleSpec) : RuleSpec :=
  { verb := .shouldNot, importDir := r.importDir, exc := true, subjects := keptSubjects r.subjects,
    objects := keptSubjects r.subjects, anything := false }

/-! ### the fluent call chain -/

def verbRuleOp : Verb → RuleOp
  | .should => .should
  | .shouldOnly => .shouldOnly
  | .shouldNot => .shouldNot

def importRuleOp (r : RuleSpec) : RuleOp :=
  if r.anything then (if r.importDir then .importAnything else .beImportedByAnything)
  else match r.importDir, r.exc with
    | true, false => .importThat
    | false, false => .beImportedByThat
    | true, true => .importExcept
    | false, true => .beImportedByExcept

/-- one naming call: `are_sub_modules_of([...])` when the first (hence, for a homogeneous list, every) filter is an
    `are_sub_modules_of` filter, `are_named([...])` otherwise -/
def namingOp (fs : List SFilter) : RuleOp :=
  match fs with
  | .subOf _ :: _ => .areSubModulesOf (fs.map fun f => render f.id)
  | _ => .areNamed (fs.map fun f => render f.id)

/-- all filters of one kind: this is what a single naming call of the fluent API can express -/
def homogeneous (fs : List SFilter) : Bool := fs.all (fun f => !f.isSub) || fs.all (fun f => f.isSub)

/-- the rule can be written as one fluent chain (one naming call per side) -/
def fluent (r : RuleSpec) : Bool := homogeneous r.subjects && (r.anything || homogeneous r.objects)

/-- `Rule().modules_that().<naming>(subjects).<verb>().<import type>()[.<naming>(objects)]` -/
def ruleOps (r : RuleSpec) : List RuleOp :=
  [.modulesThat, namingOp r.subjects, verbRuleOp r.verb, importRuleOp r] ++
  (if r.anything then [] else [namingOp r.objects])

/-! ### the literal reading of "something else" (audit F3) -/

/-- `others` read literally: the far end is outside THE MODULES THE SUBJECT STANDS FOR (`s.mem`) and outside every
    object. Differs from `PtaSpec.others` only for `sub modules of X` subjects, where an import between a strict
    descendant of `X` and `X` itself counts as "something else" here and does not count there. -/
def othersLit (a : Arch) (dir : Bool) (s : SFilter) (os : List SFilter) : List (Name × Name) :=
  a.imports.filter fun e =>
    let near := if dir then e.1 else e.2
    let far := if dir then e.2 else e.1
    s.mem near && !s.mem far && os.all fun o => !o.mem far

/-- the verdict with `othersLit` in place of `others` -/
def verdictLit (a : Arch) (r : RuleSpec) : Bool :=
  let os := r.effObjects
  let edgeAll := r.subjects.all fun s => os.all fun o => !(edges a r.importDir s o).isEmpty
  let edgeNone := r.subjects.all fun s => os.all fun o => (edges a r.importDir s o).isEmpty
  let otherAll := r.subjects.all fun s => !(othersLit a r.importDir s os).isEmpty
  let otherNone := r.subjects.all fun s => (othersLit a r.importDir s os).isEmpty
  match r.verb, r.effExc with
  | .should, false => edgeAll
  | .shouldNot, false => edgeNone
  | .shouldOnly, false => edgeAll && otherNone
  | .should, true => otherAll
  | .shouldOnly, true => otherAll && edgeNone
  | .shouldNot, true => otherNone

/-- no import connects a strict descendant of `X` with `X` itself in the rule's direction, for any
    `sub modules of X` subject -/
def noImportToOwnParent (a : Arch) (r : RuleSpec) : Bool :=
  r.subjects.all fun s => !s.isSub || a.imports.all fun e =>
    !(s.mem (if r.importDir then e.1 else e.2) && (if r.importDir then e.2 else e.1) == s.id)

end Pta
