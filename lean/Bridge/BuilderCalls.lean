/-
  Bridge.BuilderCalls — abstraction maps for the builder histories added with the entry-point glue:
  LayeredArchitecture calls with both argument forms of `containing_modules` (`LArchCall`, property C16) and
  DiagramRule calls (`DiagramRuleOp`, property C13), to the specification vocabularies of PtaSpec/BuilderSpec.lean.
-/
import PtaModel
import PtaSpec
import Bridge.Abs
namespace Pta
open PtaSpec

/-- the specification call of a builder call: `containing_modules` supplies the module names it was given, "string or
    list argument alike" (`LCall.modules`) -/
def callToLCall : LArchCall → LCall
  | .op o => toLCall o
  | .containing (.str s) => .modules [s]
  | .containing (.list ms) => .modules ms

/-- the same call with a `str` argument of `containing_modules` written as the one-element list -/
def LArchCall.listForm : LArchCall → LArchCall
  | .containing (.str s) => .containing (.list [s])
  | c => c

/-- identifiers per layer of an architecture (what a layer definition lists, regex patterns included) -/
def LArch.idsPerLayer (a : LArch) : List (Str × List Str) := a.map fun l => (l.1, l.2.map (·.id))

/-- the specification call of a DiagramRule builder call -/
def toDCall : DiagramRuleOp → DCall
  | .fromFile c => .fromFile c
  | .withBaseModule p => .withBase p
  | .baseModuleIncluded => .baseIncluded

end Pta
