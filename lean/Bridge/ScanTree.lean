/-
  Bridge.ScanTree — abstraction of a directory tree (model vocabulary: `Entry`, raw path strings, an exclusion
  test on path strings) to the specification's `SEntry` list, the Bool-valued well-formedness predicate of a
  directory tree, and the architecture read off a graph (property C04).
-/
import Bridge.Abs
import Bridge.ScanAbs
namespace Pta
open PtaSpec

/-- last path component of an entry (`[]` for the root) -/
def lastName (e : Entry) : Str :=
  match e.rel.getLast? with
  | some n => n
  | none => []

/-- `toSEntry` (Bridge.ScanAbs) in terms of `lastName` -/
theorem toSEntry_lastName (excl : Str → Bool) (base : Str) (e : Entry) :
    toSEntry excl base e =
      { rel := e.rel, isDir := e.isDir, isPy := !e.isDir && isPyFile (lastName e), stem := dropSuffix (lastName e),
        excludedHere := excl (pathStr base e.rel), stmts := e.stmts.map toSStmt } := rfl

/-- the whole tree as the specification sees it: the root directory itself and every entry below it -/
def toSEntries (excl : Str → Bool) (base : Str) (entries : List Entry) : List SEntry :=
  (rootEntry :: entries).map (toSEntry excl base)

/-- relative paths are pairwise different -/
def relsNodup : List Entry → Bool
  | [] => true
  | e :: es => !(es.any fun d => d.rel == e.rel) && relsNodup es

/-- shape of a directory tree: paths duplicate-free, non-empty, and every entry's parent path is the root or a
    listed directory -/
def treeShape (entries : List Entry) : Bool :=
  relsNodup entries &&
  entries.all fun e => !e.rel.isEmpty &&
    (e.rel.length == 1 || entries.any fun d => d.isDir && d.rel == e.rel.dropLast)

/-- names, everywhere: directory names and the stems of `.py` files are non-empty and dot-free; no `x.py` next to
    a directory `x` -/
def treeNames (entries : List Entry) : Bool :=
  (entries.all fun e =>
    if e.isDir then compWF (lastName e) else (!isPyFile (lastName e) || compWF (dropSuffix (lastName e)))) &&
  (entries.all fun e => e.isDir || !isPyFile (lastName e) ||
    !(entries.any fun d => d.isDir && d.rel == e.rel.dropLast ++ [dropSuffix (lastName e)]))

/-- the simple, global well-formedness of a directory tree -/
def treeWF (entries : List Entry) : Bool := treeShape entries && treeNames entries

/-- an entry the scan from `mp` can see: `mp` itself or a directory above it, or an entry below `mp` with no
    excluded path from `mp` down to the entry (inclusive) -/
def relevant (excl : Str → Bool) (base : Str) (mp : List Str) (e : Entry) : Bool :=
  e.rel.isPrefixOf mp ||
  (mp.isPrefixOf e.rel &&
    (List.range (e.rel.length + 1)).all fun k => k < mp.length || !excl (pathStr base (e.rel.take k)))

/-- names, where the scan looks: the conditions of `treeNames` for the relevant entries only (anything may lie in
    excluded directories and outside `mp`'s sub-tree and ancestor line) -/
def treeNamesFor (excl : Str → Bool) (base : Str) (mp : List Str) (entries : List Entry) : Bool :=
  (entries.all fun e => !relevant excl base mp e ||
    (if e.isDir then compWF (lastName e) else (!isPyFile (lastName e) || compWF (dropSuffix (lastName e))))) &&
  (entries.all fun e => !relevant excl base mp e || e.isDir || !isPyFile (lastName e) ||
    !(entries.any fun d => d.isDir && d.rel == e.rel.dropLast ++ [dropSuffix (lastName e)]))

/-- well-formedness of a directory tree as far as the scan from `mp` with exclusion test `excl` is concerned
    (implied by `treeWF entries`) -/
def treeWFFor (excl : Str → Bool) (base : Str) (mp : List Str) (entries : List Entry) : Bool :=
  treeShape entries && treeNamesFor excl base mp entries

/-- `module_path` is the root directory or a listed directory -/
def mpOK (entries : List Entry) (mp : List Str) : Bool :=
  mp.isEmpty || entries.any fun d => d.isDir && d.rel == mp

/-- a directory or a `.py` file -/
def dirOrPy (e : Entry) : Bool := e.isDir || isPyFile (lastName e)

/-- the architecture read off a graph: nodes and import edges, split into components -/
def graphArch (g : PGraph Str) : Arch :=
  { nodes := g.nodes.map splitDots, imports := g.importPairs.map fun p => (splitDots p.1, splitDots p.2) }

end Pta
