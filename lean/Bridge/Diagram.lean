/-
  Bridge.Diagram — abstraction maps for property C07 (DiagramRule): the parser result a specification-level
  diagram denotes, the items of a verdict, and the renaming `with_base_module` performs on names, filters,
  generated rules and diagrams.
-/
import PtaModel
import PtaSpec
import Bridge.Abs
namespace Pta
open PtaSpec

/-- the parse result a diagram stands for: modules = rendered components (in order); dependencies = the arrows
    grouped by dependor in first-occurrence order (the parser's `addDep` fold), rendered -/
def parsedOf (d : Diagram) : Parsed' :=
  ⟨d.components.map render, d.arrows.foldl (fun acc e => addDep acc (render e.1) (render e.2)) []⟩

/-- outcome of one rule on a graph -/
def ruleVerdict (mt : Str → Str → Bool) (g : PGraph Str) (r : RuleState) : Verdict := (assertApplies mt r g).2

/-- the report items of a verdict (none unless it is a failure) -/
def Verdict.items : Verdict → List Item
  | .fail its => its
  | _ => []

def Verdict.isFail : Verdict → Bool
  | .fail _ => true
  | _ => false

def Verdict.errKind : Verdict → Option ErrKind
  | .err k => some k
  | _ => none

/-- outcome of a diagram rule without the report -/
def DVerdict.cls : DVerdict → VClass
  | .pass => .pass
  | .fail _ => .fail
  | .err k => .err k

/-- `p.name` -/
def prefixName (q m : Str) : Str := q ++ '.' :: m

def prefixFilter (q : Str) : Filter → Filter
  | .name i => .name (prefixName q i)
  | .parent i => .parent (prefixName q i)
  | .regex p => .regex p

/-- a rule with every module name `m` replaced by `q.m` -/
def prefixRule (q : Str) (r : RuleState) : RuleState :=
  { r with cfg := { r.cfg with subjects := r.cfg.subjects.map (·.map (prefixFilter q)),
                               objects := r.cfg.objects.map (·.map (prefixFilter q)) } }

/-- a diagram with every component written as `q.name` -/
def prefixDiagram (q : Name) (d : Diagram) : Diagram :=
  ⟨d.components.map (q ++ ·), d.arrows.map fun e => (q ++ e.1, q ++ e.2)⟩

end Pta
