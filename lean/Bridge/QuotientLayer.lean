/-
  Bridge.QuotientLayer — "at or above the level limit" for layer rules and diagrams (property C09, second sentence):
  the analogue of `ruleAbove` (Bridge/Quotient.lean) for the other two rule kinds.  A listed module of a layer / a
  component of a diagram lies at or above level `k` when it has at most `k + 1` components (same convention as
  `filterAbove k (.named x)`).
-/
import Bridge.Abs
import Bridge.Quotient
namespace Pta
open PtaSpec

/-- a module name lies at or above level `k`: at most `k + 1` components -/
def nameAbove (k : Nat) (m : Name) : Bool := decide (m.length ≤ k + 1)

/-- every listed module of every layer lies at or above level `k` -/
def layersAbove (k : Nat) (ls : Layers) : Bool := ls.all fun l => l.2.all (nameAbove k)

/-- every listed module of the layers the rule MENTIONS (subject and, unless `any layer`, objects) lies at or above
    level `k`; nothing is required of the other layers -/
def ruleLayersAbove (k : Nat) (ls : Layers) (r : LRuleSpec) : Bool :=
  (ls.get r.subject).all (nameAbove k) && (r.anything || r.objects.all fun on => (ls.get on).all (nameAbove k))

/-- every component of the diagram lies at or above level `k` -/
def diagramAbove (k : Nat) (d : Diagram) : Bool := d.components.all (nameAbove k)

end Pta
